"""C07 - GEM communication state follows the E30 establish-communications model.

Model-based: generated histories over {enable, disable, link up+select, link lost, inbound S1F13 (W), inbound S1F14 with
COMMACK 0 / !=0 answering the pending S1F13 or an older one, other primaries, virtual-time advances around T3 and the
establish-communications delay, user refusing/accepting S1F13} are applied to a real GemHostHandler / GemEquipmentHandler
(real HsmsProtocol + TCP classes on simulated sockets, deterministic scheduler, virtual clock) and to an E30 reference
model in lock-step.

What is demanded (statement, nothing more):
 (i)   implementation COMMUNICATING  =>  an S1F13/S1F14 exchange with COMMACK 0 completed on the current link
       (either direction: its S1F13 answered with COMMACK 0, or the peer's S1F13 which it answered with COMMACK 0);
       and conversely after such an exchange it reports COMMUNICATING (E30 transition table)
 (ii)  an unanswered / refused attempt is retried after the configured delay while the link stays up: the next S1F13
       appears exactly `delay` after the failure point (T3 expiry for an unanswered attempt; for a refused one either the
       arrival of the refusal or the T3 expiry of that attempt - both accepted)
 (iii) link loss / disable => not COMMUNICATING at the next quiescent point
 (iv)  no user stream/function callback fires while the model is not COMMUNICATING
A late S1F14 (COMMACK 0) answering an earlier S1F13 of the same link is an exchange completed on the current link: the
model accepts both outcomes there (counted as 'unconstrained').

User answer modes: on_commack_requested() of the application answers constantly (accept / refuse) or differently from call
to call (alternating 1,0,1,0.. / 0,1,0,1.., one-shot "deny the next request"; initial mode from the case, switched by ops).
The model never predicts the answer from the mode: it follows the COMMACK that actually went out on the wire (COMMUNICATING
only after an S1F14 with COMMACK 0 was sent; a refused S1F13 leaves the state alone), and the wire value must be one of the
values the callback returned while that S1F13 was handled.

Fast peer ('fast-retry' template, the only histories that run under a PRNG schedule - case["sched"] = {seed, switch}): op
`fast_reply` lets virtual time run until the handler's next S1F13 (the retry sent by the T3 / delay timer thread) is on the
wire, stops the world right there (sim.pump(stop=bytes on the wire)), feeds the S1F14 (refusing or accepting) at once and
only then lets the threads run, the scheduler switching threads at random yield points: the answer is dispatched while the
timer thread that sent the attempt may still exist. The model is the same as for an answer at a quiescent point (WAIT_DELAY
and the next S1F13 one delay later, or COMMUNICATING). These histories contain only ops whose outcome at the next quiescent
point does not depend on the interleaving (advance, S1F14 answers, fast replies).
"""

from __future__ import annotations

from hypothesis import strategies as st

from vf import gemrig, hsmsrig
from vf.gemrig import A, B, L
from vf.ref import e37
from vf.run import Failure

PROPERTY = "C07"
LEVEL = "exploration"
TECHNIQUE = "model-based stateful testing against an E30 communication-state reference model under a deterministic scheduler with a virtual clock"
RULE = (
    "Histories of 1..25 ops (quick) / 1..50 (thorough) over {enable, disable, link_up (connect+select), link_lost, S1F13 in, "
    "S1F14 in (COMMACK 0 | 1; answering the pending attempt | an older attempt), other primary in, advance dt with dt drawn "
    "around T3 and the establish-communications delay (just before / exactly / just after), set on_commack_requested accept | "
    "refuse | alternate 1,0,.. | alternate 0,1,.. | deny once (answer differs between consecutive calls; the model follows the COMMACK "
    "on the wire, which must be a value the callback returned during that op)}, host and equipment roles; initial answer mode drawn "
    "per case. Template 'fast-retry' (PRNG schedule seed x switch probability, confined to it): failed attempt, then 2..4 x "
    "fast_reply = run virtual time until the retry S1F13 is on the wire, feed the S1F14 (COMMACK != 0 mostly) before the world "
    "is quiescent, settle under the random schedule, then advance by the delay. After every op communication_state, the S1F13/S1F14 frames on the wire with their "
    "virtual timestamps and the user callback log are compared with the model. Non-trivial = history containing a refusal, a "
    "late S1F14, a link loss in WAIT_CRA/WAIT_DELAY/COMMUNICATING, or a timer expiry; distinct by op sequence."
)
ASSUMPTIONS = [
    "E30 communication state model typed in from the standard (WAIT_CRA / WAIT_DELAY / COMMUNICATING, T3 = reply timeout, establish-communications delay)",
    "timers run on the scheduler's virtual clock; a retry is 'exactly after the delay' when it appears within 0.05 s of the computed instant",
    "default (run-to-block) schedule, except the 'fast-retry' template (PRNG schedule while an S1F14 is answered the moment the retry S1F13 is on the wire); other thread interleavings are C05/C06's subject",
]
BUDGET_S = {"quick": 110, "thorough": 1200}

T3 = 6.0
DELAY = 4.0

OPS = ["enable", "disable", "link_up", "link_lost", "s1f13_in", "s1f13_in", "s1f13_in", "s1f14_ok", "s1f14_ok", "s1f14_refuse", "s1f14_old", "other_in", "advance", "advance", "advance",
       "user_refuse", "user_accept", "user_alt10", "user_alt01", "user_deny_once", "fast_reply"]
# answer modes of the application's on_commack_requested(): constant, or differing between consecutive calls
USER_MODES = {"user_accept": "accept", "user_refuse": "refuse", "user_alt10": "alt10", "user_alt01": "alt01", "user_deny_once": "deny_once"}
VARYING = ("alt10", "alt01", "deny_once")
# ops whose outcome at the next quiescent point does not depend on the thread interleaving (the only ones used under a PRNG schedule)
SCHED_SAFE = ("advance", "s1f14_ok", "s1f14_refuse", "s1f14_old", "fast_reply")
REFUSALS = [1, 1, 2, 64, 255, "empty"]
DTS = [0.5, DELAY - 0.1, DELAY, DELAY + 0.1, T3 - 0.1, T3, T3 + 0.1, T3 + DELAY, 1.0, 2.0]


@st.composite
def case_strategy(draw, max_ops=25):
    n = draw(st.integers(1, max_ops))
    ops = []
    for _ in range(n):
        k = draw(st.sampled_from(OPS))
        op = {"op": k}
        if k == "advance":
            op["dt"] = draw(st.sampled_from(DTS))
        if k == "other_in":
            # mostly the user's S10F3; also messages that merely look like the establish exchange (function 13 / 14 on another
            # stream) or are answered by built-in handlers
            op["sf"] = draw(st.sampled_from([[10, 3], [10, 3], [10, 3], [2, 13], [5, 13], [7, 13], [2, 14], [6, 14], [1, 1], [2, 17]]))
        if k == "s1f14_refuse":
            # any COMMACK other than one byte 0: non-zero values, or an item without any byte (still not "COMMACK = 0")
            op["commack"] = draw(st.sampled_from(REFUSALS))
        if k == "fast_reply":
            op["commack"] = draw(st.sampled_from([0] + REFUSALS))
        ops.append(op)
    # most histories start by getting somewhere interesting
    start = draw(st.sampled_from(["none", "up", "up", "up", "restart-in-wait-delay", "restart-in-wait-cra", "restart-after-t3", "fast-retry", "fast-retry"]))
    sched = None
    if start == "up":
        ops = [{"op": "enable"}, {"op": "link_up"}] + ops
    elif start == "restart-in-wait-delay":
        # a refused attempt, then disable/enable while the establish-communications delay of that attempt is still
        # running, then a second refused attempt: timers of the first life must not act in the second
        gap = draw(st.sampled_from([0.5, 1.0, 2.0, 3.0]))
        ops = [{"op": "enable"}, {"op": "link_up"}, {"op": "s1f14_refuse"}, {"op": "advance", "dt": gap}, {"op": "disable"}, {"op": "enable"},
               {"op": "link_up"}, {"op": "s1f14_refuse"}, {"op": "advance", "dt": draw(st.sampled_from([1.0, 2.0, DELAY - 0.1]))}, {"op": "advance", "dt": DELAY}] + ops
    elif start == "restart-in-wait-cra":
        gap = draw(st.sampled_from([0.5, 2.0, T3 - 0.5]))
        ops = [{"op": "enable"}, {"op": "link_up"}, {"op": "advance", "dt": gap}, {"op": "disable"}, {"op": "enable"}, {"op": "link_up"},
               {"op": "advance", "dt": draw(st.sampled_from([1.0, T3 - 0.1, T3 + 0.1]))}, {"op": "advance", "dt": DELAY + 0.1}] + ops
    elif start == "restart-after-t3":
        ops = [{"op": "enable"}, {"op": "link_up"}, {"op": "advance", "dt": T3 + 0.5}, {"op": "disable"}, {"op": "enable"}, {"op": "link_up"},
               {"op": "s1f14_refuse"}, {"op": "advance", "dt": DELAY - 0.5}, {"op": "advance", "dt": 1.0}] + ops
    elif start == "fast-retry":
        # a failed first attempt (refused, or unanswered until T3), then the peer answers each retry the moment its S1F13 is
        # on the wire - while the timer thread that sent it may still exist - under a PRNG schedule; afterwards the delay
        # passes: the next retry has to show up
        head = [{"op": "enable"}, {"op": "link_up"}]
        head.append({"op": "s1f14_refuse", "commack": draw(st.sampled_from(REFUSALS))} if draw(st.booleans()) else {"op": "advance", "dt": T3 + 0.1})
        for _ in range(draw(st.integers(2, 4))):
            gap = draw(st.sampled_from([None, None, 1.0, DELAY - 0.1]))
            if gap is not None:
                head.append({"op": "advance", "dt": gap})
            head.append({"op": "fast_reply", "commack": draw(st.sampled_from(REFUSALS))})
        head += [{"op": "advance", "dt": DELAY}, {"op": "advance", "dt": 0.2}]
        ops = head + [op for op in ops if op["op"] in SCHED_SAFE][:8]
        sched = {"seed": draw(st.integers(1, 1 << 16)), "switch": draw(st.sampled_from([0.1, 0.15, 0.2, 0.2, 0.3, 0.3, 0.5]))}
    case = {"ops": ops, "role": draw(st.sampled_from(["host", "equipment"])), "user": draw(st.sampled_from(["accept", "accept", "accept", "refuse", "alt10", "alt10", "alt01", "deny_once"]))}
    if sched is not None:
        case["sched"] = sched
    return case


class Model:
    def __init__(self):
        self.enabled = False
        self.link = False
        self.state = "DISABLED"  # DISABLED | NOT_COMMUNICATING | WAIT_CRA | WAIT_DELAY | COMMUNICATING
        self.attempts = []  # (system, t_sent) of S1F13 sent by the handler on the current link
        self.t3_at = None  # virtual time at which the pending attempt times out
        self.retry_at = None  # set of acceptable instants for the next S1F13
        self.established = False  # an exchange with COMMACK 0 completed on the current link
        self.unconstrained = False


def run_case(case, observe=None):
    role = case["role"]
    ops = case["ops"]
    m = Model()
    stats = {"refusal": 0, "late_s1f14": 0, "loss_in": set(), "timer_expiry": 0, "unconstrained": 0, "vary_refused": 0, "vary_accepted": 0,
             "fast_reply": 0, "fast_refused": 0, "fast_accepted": 0, "fast_refused_sender_alive": 0}
    # PRNG schedule only where the case asks for it (the 'fast-retry' template); default = run-to-block
    with hsmsrig.make_world(case.get("sched") or {}) as w:
        sim = w.sim
        rig = gemrig.GemRig(w, role=role, t3=T3, ec_delay=DELAY, handler_kwargs={"initial_control_state": "HOST_OFFLINE"} if role == "equipment" else None)
        h = rig.h
        user_calls = []
        # the application's answer to an inbound S1F13: constant, or differing between consecutive calls
        user = {"mode": case.get("user", "accept"), "n": 0}  # n = calls since the mode was set
        answers = []  # every value on_commack_requested() returned, in call order

        def user_answer(n=None):
            mode = user["mode"]
            k = user["n"] if n is None else n
            return {"accept": 0, "refuse": 1, "alt10": 1 - k % 2, "alt01": k % 2, "deny_once": 1 if k == 0 else 0}[mode]

        def on_commack_requested():
            v = user_answer()
            user["n"] += 1
            answers.append(v)
            return v

        h.on_commack_requested = on_commack_requested
        # a user callback for a primary that the handlers do not handle themselves
        h.register_stream_function(10, 3, lambda handler, message: user_calls.append((sim.now, m.state)) or handler.stream_function(10, 4)(0))
        comm_events = []
        h.events.handler_communicating += lambda d: comm_events.append(sim.now)

        def fail(bucket, i, obs, exp):
            return Failure(bucket, case, f"op#{i} {ops[i] if i < len(ops) else ''} t={sim.now - t0:.2f}: {obs}", exp)

        t0 = sim.now
        pending_s1f13 = []  # S1F13 frames sent by the handler, not yet answered: (system, t)
        old_s1f13 = []  # attempts that timed out / were refused on the current link

        def observe_wire(i):
            """Process frames the handler sent; returns Failure or None."""
            for f in rig.data_out():
                sf = (f["stream"], f["function"])
                if sf == (1, 13) and f["w"]:
                    t = f.get("t", sim.now)
                    # (ii) timing of attempts
                    if m.state == "WAIT_CRA" and m.retry_at is None and m.t3_at is None:
                        pass
                    if m.expect_s1f13 is None:
                        return fail("unexpected-s1f13", i, f"S1F13 sent in model state {m.state}", "no attempt now")
                    lo, hi = m.expect_s1f13
                    if not (lo - 0.05 <= t <= hi + 0.05):
                        return fail("retry-timing", i, f"S1F13 at t={t - t0:.2f}", f"between {lo - t0:.2f} and {hi - t0:.2f}")
                    m.expect_s1f13 = None
                    pending_s1f13.append((f["system"], t))
                    m.state = "WAIT_CRA"
                    m.loose = False
                    m.t3_at = t + T3
                elif sf == (1, 14):
                    pass  # checked by the op that caused it
                elif sf == (1, 1) and f["w"]:
                    rig.send_sf(1, 2, 0, (L, []) if role == "equipment" else (L, [(A, b"m"), (A, b"1")]), system=f["system"])
                elif sf == (10, 4):
                    pass
            return None

        m.expect_s1f13 = None

        def tick(i):
            """Advance the model's timers to sim.now (T3 expiry -> WAIT_DELAY, delay expiry -> retry expected)."""
            changed = True
            while changed:
                changed = False
                if m.state == "WAIT_CRA" and m.t3_at is not None and sim.now >= m.t3_at - 1e-9:
                    t = m.t3_at
                    m.t3_at = None
                    m.state = "WAIT_DELAY"
                    old_s1f13.extend(pending_s1f13)
                    del pending_s1f13[:]
                    m.delay_until = (t + DELAY, t + DELAY)
                    stats["timer_expiry"] += 1
                    changed = True
                if m.state == "WAIT_DELAY" and m.delay_until is not None and sim.now >= m.delay_until[0] - 1e-9:
                    # the retry is due: the implementation must have sent (or is about to send) the next S1F13
                    m.expect_s1f13 = m.delay_until
                    m.delay_until = None
                    stats["timer_expiry"] += 1

        m.delay_until = None
        m.loose = False
        # coverage only (no verdict depends on it): was a fast refusal handled (WAIT_DELAY entered) while the timer thread that
        # had sent the refused attempt still existed?
        fast_senders = []

        def on_enter_wait_delay(_data):
            if any(t.state != "DONE" for t in fast_senders):
                stats["fast_refused_sender_alive"] += 1
            del fast_senders[:]

        h.communication_state.wait_delay.events.enter.register(on_enter_wait_delay)
        for i, op in enumerate(ops):
            k = op["op"]
            n_user = len(user_calls)
            if k == "enable":
                if m.enabled:
                    continue
                st_, _ = rig.enable()
                if st_ != "done":
                    return fail("enable-hangs", i, st_, "returns")
                m.enabled = True
                m.state = "NOT_COMMUNICATING"
            elif k == "disable":
                if not m.enabled:
                    continue
                st_, _ = rig.disable(horizon=120)
                if st_ != "done":
                    return fail("disable-hangs", i, f"{st_} {sim.blocked_report()}", "returns")
                # closing the link takes (virtual) time: timers that expired meanwhile are processed first
                tick(i)
                f = observe_wire(i)
                if f is not None:
                    return f
                if m.link and m.state in ("WAIT_CRA", "WAIT_DELAY", "COMMUNICATING"):
                    stats["loss_in"].add(m.state)
                m.enabled = False
                m.link = False
                m.loose = False
                m.state = "DISABLED"
                m.t3_at = m.delay_until = m.expect_s1f13 = None
                m.established = False
                del pending_s1f13[:], old_s1f13[:]
                if rig.peer is not None and not rig.peer.closed:
                    rig.peer.close()
            elif k == "link_up":
                if not m.enabled or m.link:
                    continue
                if not rig.connect_peer():
                    sim.advance(1.0)
                    if not rig.connect_peer():
                        return fail("connect-refused", i, f"{sim.blocked_report()} {sim.thread_errors[-1:]}", "listening")
                rig._cursor = len(rig.frames_out)
                m.link = True
                m.established = False
                del pending_s1f13[:], old_s1f13[:]
                # selecting the link starts the first attempt at once (or, if an attempt of the previous link is still
                # being timed out by the library, at the latest one T3 + delay later)
                m.expect_s1f13 = (sim.now, sim.now + (T3 + DELAY + 0.1 if m.loose else 0))
                m.t3_at = m.delay_until = None
                rig.feed(e37.control_frame(e37.SELECT_REQ, rig.next_sys()))
                if rig.state() != "CONNECTED_SELECTED":
                    return fail("select-failed", i, rig.state(), "SELECTED")
                m.state = "LOOSE" if m.loose else "WAIT_CRA"
            elif k == "link_lost":
                if not m.link:
                    continue
                if m.state in ("WAIT_CRA", "WAIT_DELAY", "COMMUNICATING"):
                    stats["loss_in"].add(m.state)
                rig.peer.close()
                sim.advance(1.0)
                tick(i)
                f = observe_wire(i)
                if f is not None:
                    return f
                m.link = False
                # the statement pins only "not COMMUNICATING" after a link loss; an attempt that was under way keeps its
                # timers in the library (E30 would restart at once): the model re-synchronises on the next S1F13
                m.loose = m.state in ("WAIT_CRA", "WAIT_DELAY") or m.loose
                m.state = "NOT_COMMUNICATING"
                m.t3_at = m.delay_until = m.expect_s1f13 = None
                m.established = False
                del pending_s1f13[:], old_s1f13[:]
            elif k in USER_MODES:
                user["mode"] = USER_MODES[k]
                user["n"] = 0
                continue
            elif k == "advance":
                sim.advance(op["dt"])
            elif not m.link:
                continue
            elif m.state == "LOOSE" and k in ("s1f13_in", "s1f14_ok", "s1f14_refuse", "s1f14_old", "other_in", "fast_reply"):
                continue  # not predictable until the library's own attempt shows up
            elif k == "s1f13_in":
                item = (L, [(A, b"peer"), (A, b"1.0")]) if role == "host" else (L, [])
                n_ans = len(answers)
                s, mine, other = rig.request(1, 13, item)
                rig._cursor -= len(other)  # let observe_wire see frames that were not the reply
                rig._cursor = max(0, rig._cursor)
                if m.state in ("WAIT_CRA", "WAIT_DELAY", "COMMUNICATING"):
                    # the handler must answer S1F14 with its COMMACK
                    if len(mine) != 1 or (mine[0]["stream"], mine[0]["function"]) != (1, 14):
                        if m.state == "WAIT_DELAY":
                            pass  # E30: a message in WAIT_DELAY restarts the attempt; answering is C08's subject (not communicating)
                        else:
                            return fail("s1f13-not-answered", i, [(f["stream"], f["function"]) for f in mine], "one S1F14")
                    else:
                        body = gemrig.dec(mine[0]["body"])
                        commack = body[1][0][1][0]
                        # the answer on the wire is one the application gave while this S1F13 was handled (if it was not
                        # asked at all: the one it would give now)
                        want = sorted(set(answers[n_ans:])) or [user_answer()]
                        if commack not in want:
                            return fail("s1f14-commack", i, commack, f"one of {want} (answers of on_commack_requested during this op)")
                        # the model follows what went out on the wire, not what the application might say when asked again
                        if commack == 0:
                            m.state = "COMMUNICATING"
                            m.established = True
                            m.t3_at = m.delay_until = m.expect_s1f13 = None
                            del pending_s1f13[:]
                        else:
                            stats["refusal"] += 1
                        if user["mode"] in VARYING:
                            stats["vary_accepted" if commack == 0 else "vary_refused"] += 1
            elif k in ("s1f14_ok", "s1f14_refuse", "s1f14_old", "fast_reply"):
                fast = k == "fast_reply"
                src = old_s1f13 if k == "s1f14_old" else pending_s1f13
                if fast:
                    # fast peer: virtual time runs until the handler's next attempt (sent by the T3 / delay timer thread) is on
                    # the wire; the world is stopped right there and the answer is fed before any thread runs on
                    if m.state == "WAIT_CRA" and m.t3_at is not None:
                        limit = m.t3_at + DELAY + 0.2
                    elif m.state == "WAIT_DELAY" and m.delay_until is not None:
                        limit = m.delay_until[1] + 0.2
                    else:
                        continue
                    del fast_senders[:]
                    if sim.pump(may_advance=lambda: True, limit=limit, stop=lambda: bool(rig.peer.rx)) == "stop":
                        # coverage only: the timer thread that sent the attempt (the newest timer is the attempt's own T3 timer)
                        fast_senders.extend(sim.alive("Timer-")[:-1])
                        tick(i)
                        f = observe_wire(i)
                        if f is not None:
                            return f
                        if m.state != "WAIT_CRA":
                            src = []  # what was sent is not an attempt
                    else:
                        sim.advance(max(0.0, limit - sim.now))  # no attempt in time: the common checks below decide
                        src = []
                    if src:
                        stats["fast_reply"] += 1
                elif not src:
                    continue
                if src:
                    s, t_sent = src[-1]
                    commack = op.get("commack", 1) if k in ("s1f14_refuse", "fast_reply") else 0
                    item = (L, [(B, b"" if commack == "empty" else bytes([commack])), (L, [] if role == "equipment" else [(A, b"peer"), (A, b"1.0")])])
                    rig.send_sf(1, 14, 0, item, system=s, settle=not fast)
                    if fast:
                        stats["fast_accepted" if commack == 0 else "fast_refused"] += 1
                if not src:
                    pass
                elif k == "s1f14_old":
                    stats["late_s1f14"] += 1
                    if m.state in ("WAIT_CRA", "WAIT_DELAY"):
                        m.unconstrained = True  # a late COMMACK 0 of the same link: either outcome satisfies the statement
                elif m.state == "WAIT_CRA":
                    if commack == 0:
                        m.state = "COMMUNICATING"
                        m.established = True
                        m.t3_at = m.delay_until = m.expect_s1f13 = None
                        del pending_s1f13[:]
                    else:
                        stats["refusal"] += 1
                        # refused: retried after the delay, counted from the refusal or from the T3 expiry of this attempt
                        m.refused_at = sim.now
                        m.unconstrained_retry = (sim.now + DELAY, m.t3_at + DELAY)
                        old_s1f13.extend(pending_s1f13)
                        del pending_s1f13[:]
                        m.state = "REFUSED"  # resolved below from the implementation (WAIT_DELAY now, or WAIT_CRA until T3)
            elif k == "other_in":
                osf = tuple(op.get("sf", (10, 3)))
                if osf == (10, 3):
                    s, mine, other = rig.request(10, 3, (L, [(B, b"\x01"), (A, b"hello")]))
                    rig._cursor = max(0, rig._cursor - len(other))
                elif osf[1] % 2:
                    s, mine, other = rig.request(osf[0], osf[1], (L, []))
                    rig._cursor = max(0, rig._cursor - len(other))
                else:
                    rig.send_sf(osf[0], osf[1], 0, (L, [(B, b"\x00"), (L, [])]))
            sim.settle()
            tick(i)
            f = observe_wire(i)
            if f is not None:
                return f
            tick(i)
            real = rig.comm_state()
            # ---- resolve the model's documented choices from the implementation
            if m.state == "REFUSED":
                if real == "WAIT_DELAY":
                    m.state = "WAIT_DELAY"
                    m.t3_at = None
                    m.delay_until = (m.refused_at + DELAY, m.refused_at + DELAY)
                elif real == "WAIT_CRA":
                    m.state = "WAIT_CRA"  # keeps waiting until T3 of the refused attempt, then delays
                else:
                    return fail("refused-attempt-" + real.lower(), i, real, "WAIT_DELAY or WAIT_CRA after COMMACK != 0")
            if m.unconstrained:
                m.unconstrained = False
                stats["unconstrained"] += 1
                if real == "COMMUNICATING":
                    m.state = "COMMUNICATING"
                    m.established = True
                    m.t3_at = m.delay_until = m.expect_s1f13 = None
                    del pending_s1f13[:]
            # ---- (i)/(iii) state agreement
            if m.state == "LOOSE":
                if real == "COMMUNICATING":
                    return fail(f"communicating-without-exchange:after-relink:{k}", i, real, "not COMMUNICATING before an exchange")
                if m.expect_s1f13 is not None and sim.now > m.expect_s1f13[1] + 0.05:
                    return fail("retry-missing-after-relink", i, f"no S1F13 within T3+delay of the new link (state {real})", "an attempt on the new link")
                continue
            want = {"DISABLED": ("DISABLED",), "NOT_COMMUNICATING": ("NOT_COMMUNICATING",), "WAIT_CRA": ("WAIT_CRA",), "WAIT_DELAY": ("WAIT_DELAY",), "COMMUNICATING": ("COMMUNICATING",)}[m.state]
            if real == "COMMUNICATING" and m.state != "COMMUNICATING":
                why = "link-lost" if not m.link and m.enabled else "disabled" if not m.enabled else "no-commack0-exchange"
                return fail(f"communicating-without-exchange:{why}:{k}", i, f"COMMUNICATING, model {m.state}", m.state)
            if m.state == "COMMUNICATING" and real != "COMMUNICATING":
                return fail(f"not-communicating-after-exchange:{k}", i, real, "COMMUNICATING")
            if real not in want:
                # intermediate states: only the ones the statement speaks about are pinned
                if m.expect_s1f13 is not None and sim.now > m.expect_s1f13[1] + 0.05:
                    return fail("retry-missing", i, f"state {real}, no S1F13 since the delay expired", f"S1F13 at {m.expect_s1f13[1] - t0:.2f}")
                if {real, m.state} <= {"WAIT_CRA", "WAIT_DELAY", "NOT_COMMUNICATING"} and not m.link:
                    pass  # without a link the library keeps cycling its timers: not COMMUNICATING is all that is demanded
                elif not m.link:
                    pass
                else:
                    return fail(f"state:{k}:{real}-instead-of-{m.state}", i, real, m.state)
            if m.expect_s1f13 is not None and m.link and sim.now > m.expect_s1f13[1] + 0.05:
                return fail("retry-missing", i, f"no S1F13 since the delay expired (state {real})", f"S1F13 at {m.expect_s1f13[1] - t0:.2f}")
            # ---- (iv) user callbacks only while communicating
            for t, st_model in user_calls[n_user:]:
                if st_model != "COMMUNICATING":
                    return fail("user-callback-while-not-communicating", i, f"callback fired in model state {st_model}", "no callback")
        if observe is not None:
            observe.update({k: (len(v) if isinstance(v, set) else v) for k, v in stats.items()})
            observe["loss_states"] = sorted(stats["loss_in"])
    return None


def plan(tier, seed):
    quick = tier == "quick"
    return [("gen", {"shard": i, "n": 150 if quick else 1200, "max_ops": 25 if quick else 50}) for i in range(16)]


def run_task(name, kw, ctx):
    def body(case):
        obs = {}
        f = run_case(case, obs)
        cls = [case["role"]]
        if obs.get("refusal"):
            cls.append("refusal")
        if obs.get("late_s1f14"):
            cls.append("late-s1f14")
        for s in obs.get("loss_states", ()):
            cls.append(f"link-loss-in:{s}")
        if obs.get("timer_expiry"):
            cls.append("timer-expiry")
        if obs.get("unconstrained"):
            cls.append("unconstrained-late-commack0")
        if obs.get("vary_refused"):
            cls.append("varying-user-answer:refused-on-wire")
        if obs.get("vary_accepted"):
            cls.append("varying-user-answer:accepted-on-wire")
        if case.get("sched"):
            cls.append("prng-schedule")
        if obs.get("fast_reply"):
            cls.append("fast-reply")
        if obs.get("fast_refused"):
            cls.append("fast-reply:refused")
        if obs.get("fast_accepted"):
            cls.append("fast-reply:accepted")
        if obs.get("fast_refused_sender_alive"):
            cls.append("fast-reply:refusal-handled-while-sender-timer-thread-alive")
        nt = bool(obs.get("refusal") or obs.get("late_s1f14") or obs.get("loss_states") or obs.get("timer_expiry"))
        ctx.case(case, nt or f is not None, cls)
        return f

    ctx.hyp(case_strategy(kw["max_ops"]), body, kw["n"], seed_offset=kw["shard"])


def replay(case, ctx):
    return run_case(case)
