"""C09 - no peer behaviour wedges the endpoint: link loss ends in a clean, reusable state.

Fault enumeration: for each generated valid inbound stream EVERY byte offset is a cut point, followed by one of
{peer close, local disable(), silence (beyond the linktest period) then close}; then the peer reconnects, selects and
sends one data message. Runs the real HsmsProtocol + real TcpServerConnection/TcpClientConnection on simulated sockets
under the deterministic scheduler (virtual clock; a hang is 'driver blocked, nothing runnable, no timer pending' or
'not finished within the virtual-time horizon').
"""

from __future__ import annotations

from hypothesis import strategies as st

from vf import hsmsrig
from vf.checks import c04
from vf.ref import e37
from vf.run import Failure

PROPERTY = "C09"
LEVEL = "fault_enumeration"
TECHNIQUE = "fault enumeration (every cut offset of generated streams x follow-up x session state x connect mode) under a deterministic scheduler with hang detection"
RULE = (
    "Streams of 1..6 valid inbound frames (Linktest.req, catalogued data messages, 24..600 bytes) are generated; for each "
    "stream every prefix length 0..len is delivered, followed by peer close | local disable() | silence 40 s then close, in "
    "NOT_SELECTED and SELECTED, passive and active mode, optionally with a generated thread schedule. Oracle: disconnect "
    "handling finishes within 5 virtual seconds (state NOT_CONNECTED, receive buffer empty), a new connection is accepted, "
    "Select succeeds, the first message delivered afterwards is the first one sent (no stale bytes), disable() returns within "
    "its horizon; the scheduler reports no deadlock/livelock. A second generated family (closerace) applies the follow-up "
    "while the delivered bytes are still being processed and their responses are still queued, under PRNG schedules with "
    "parked preemptions in the connect/disconnect handlers, the dispatcher and _process_send_queue; a third (race) lets "
    "enable()/disable() race the accept/connect thread. Non-trivial = cut strictly inside a frame, or a closerace/race "
    "case; distinct by (stream, offset, follow-up, state, mode, schedule)."
)
ASSUMPTIONS = [
    "simulated sockets model Linux non-blocking TCP semantics (EOF, EPIPE/ECONNRESET, EBADF on closed sockets, select on a closed socket raises)",
    "schedules are sampled (default run-to-block plus PRNG schedules), not enumerated",
    "virtual-time horizons: 5 s for close handling, 120 s for disable(), T5+2 s for the active reconnect",
]
BUDGET_S = {"quick": 120, "thorough": 1500}
GRACE_S = 200

FOLLOWUPS = ("peer_close", "disable", "silence_close")


def stream_strategy():
    def mk(i, k, n, fill):
        d = {"k": k, "sys": 0x30000 + i}
        if k in ("S7F3", "S10F3"):
            d["n"] = n
        if k in ("S7F3", "S10F3", "S6F12"):
            d["fill"] = fill
        return d

    one = st.tuples(st.sampled_from(["LT", "S1F1", "S1F13", "S6F12", "S10F3", "S7F3"]), st.integers(0, 120), st.integers(0, 255))
    return st.lists(one, min_size=1, max_size=6).map(lambda l: [mk(i, k, n, f) for i, (k, n, f) in enumerate(l)])


def run_one(case):
    """case = {frames, offset, followup, state, active, sched}"""
    frames = case["frames"]
    stream = b"".join(c04.frame_bytes(f) for f in frames)
    off = case["offset"]
    active = bool(case.get("active"))
    with hsmsrig.make_world(case.get("sched", {})) as w:
        sim = w.sim
        rig = hsmsrig.Rig(w, active=active)
        st_, _ = rig.enable()
        if st_ != "done" or not rig.connect_peer():
            return Failure("setup-failed", case, f"enable={st_}", "connected")
        if case["state"] == "selected":
            if not rig.select_from_peer():
                return Failure("setup-failed", case, rig.state(), "SELECTED")
        if off > 0:
            # "unsettled": the follow-up hits while the bytes are still being processed and their responses still queued
            rig.feed(stream[:off], settle=not case.get("unsettled"))
        if not case.get("unsettled"):
            rig.drain()
        elif case.get("close_at") == "response-queued":
            # run until a response sits in the send queue (not sent yet), then apply the follow-up at that very point
            q = getattr(rig.p, "_send_queue", None)
            if q is not None:
                sim.pump(stop=lambda: q.qsize() >= 1)
        fu = case["followup"]
        if fu == "disable":
            st_, _ = rig.disable(horizon=120)
            if st_ != "done":
                return Failure(f"disable-hangs:{_where(case)}", case, f"{st_} {sim.blocked_report()}", "disable() returns")
        else:
            if fu == "silence_close":
                # answer nothing; the endpoint's own linktest fires at 30 s and times out (T6)
                sim.advance(40)
            rig.peer.close()
            r = sim.advance(5)  # < T5 (10 s): an active endpoint has not reconnected yet
        if rig.state() != "NOT_CONNECTED":
            return Failure(f"not-disconnected:{_where(case)}", case, f"{rig.state()} {sim.blocked_report()}", "NOT_CONNECTED within 5 s")
        try:
            left_over = len(rig.p._receive_buffer)
        except Exception as exc:  # noqa: BLE001 - a buffer that cannot even say how long it is is not empty
            left_over = f"len() raises {type(exc).__name__}: {exc}"
        if left_over != 0:
            return Failure(f"stale-buffer:{_where(case)}", case, left_over, 0)
        # reconnect
        n_before = len(rig.received)
        if fu == "disable":
            st_, _ = rig.enable()
            if st_ != "done":
                return Failure("reenable-hangs", case, st_, "enable() returns")
        if not rig.connect_peer():
            return Failure(f"reconnect-refused:{_where(case)}", case, f"{sim.blocked_report()} {sim.thread_errors[-2:]}", "new connection accepted")
        try:
            selected = rig.select_from_peer(system=0x7001)
        except OSError as exc:
            # the endpoint closed / reset the connection it had just accepted (or made): the peer cannot even send its select
            return Failure(f"reselect-failed:{_where(case)}", case, f"new connection dropped by the endpoint ({type(exc).__name__}) {rig.state()} {sim.blocked_report()}", "SELECTED")
        if not selected:
            return Failure(f"reselect-failed:{_where(case)}", case, f"{rig.state()} {sim.blocked_report()}", "SELECTED")
        try:
            rig.feed(e37.data_frame(0, 1, 1, True, 0x7002))
        except OSError as exc:
            return Failure(f"message-after-reconnect-lost:{_where(case)}", case, f"new connection dropped by the endpoint ({type(exc).__name__})", "0x7002 delivered")
        sim.advance(1.0)
        new = rig.received[n_before:]
        # messages completely delivered before the cut may legitimately have been dispatched late; none may appear now
        late = [m for m in new if m["system"] != 0x7002]
        complete_before = _complete_systems(frames, off)
        bad = [m for m in late if m["system"] not in complete_before]
        if bad:
            return Failure(f"stale-bytes-delivered:{_where(case)}", case, [hex(m["system"]) for m in bad], "only the new message")
        if not any(m["system"] == 0x7002 for m in new):
            return Failure(f"message-after-reconnect-lost:{_where(case)}", case, [hex(m["system"]) for m in new], "0x7002 delivered")
        st_, _ = rig.disable(horizon=120)
        if st_ != "done":
            return Failure(f"final-disable-hangs:{_where(case)}", case, f"{st_} {sim.blocked_report()}", "disable() returns")
        if rig.state() != "NOT_CONNECTED":
            return Failure(f"final-not-disconnected:{_where(case)}", case, rig.state(), "NOT_CONNECTED")
    return None


def run_race(case):
    """enable()/disable() racing the accept / connect thread. case = {race: {active, listen, pending, gap}, sched}"""
    rc = case["race"]
    active = bool(rc["active"])
    with hsmsrig.make_world(case.get("sched", {})) as w:
        sim = w.sim
        rig = hsmsrig.Rig(w, active=active)
        if active and not rc.get("listen", True):
            rig.listener.close()
        key = f"{'active' if active else 'passive'}"

        def go():
            rig.p.enable()
            if rc.get("gap"):
                import secsgem.common.tcp_connection as m

                m.time.sleep(rc["gap"])
            rig.p.disable()

        if not active and rc.get("pending"):
            # a client connects while disable() is being called: started enabled first
            st_, _ = rig.enable()
            rig.peer = w.net.connect(hsmsrig.ADDR, hsmsrig.PORT)
            st_, _ = rig.disable(horizon=120)
        else:
            st_, _ = sim.run(go, horizon=120)
        if st_ != "done":
            return Failure(f"disable-hangs-racing-connect:{key}", case, f"{st_} {sim.blocked_report()} {sim.thread_errors[-1:]}", "disable() returns")
        sim.advance(3)
        if rig.state() != "NOT_CONNECTED":
            return Failure(f"race-not-disconnected:{key}", case, rig.state(), "NOT_CONNECTED")
        # the endpoint must be reusable
        if active and not rc.get("listen", True):
            rig.listener = w.net.listen(hsmsrig.ADDR, hsmsrig.PORT)
        if rig.peer is not None and not rig.peer.closed:
            rig.peer.close()
        if active and rig.listener is not None:
            while rig.listener.accept_nowait() is not None:
                pass
        st_, _ = rig.enable()
        if st_ != "done":
            return Failure(f"race-reenable-hangs:{key}", case, st_, "enable() returns")
        if not rig.connect_peer():
            return Failure(f"race-reconnect-refused:{key}", case, f"{sim.blocked_report()} {sim.thread_errors[-2:]}", "connection accepted")
        if not rig.select_from_peer(system=0x7101):
            return Failure(f"race-reselect-failed:{key}", case, rig.state(), "SELECTED")
        st_, _ = rig.disable(horizon=120)
        if st_ != "done":
            return Failure(f"race-final-disable-hangs:{key}", case, f"{st_} {sim.blocked_report()}", "disable() returns")
    return None


def _complete_systems(frames, off):
    out = set()
    pos = 0
    for f in frames:
        pos += len(c04.frame_bytes(f))
        if pos <= off and f["k"] != "LT":
            out.add(f["sys"])
    return out


def _where(case):
    """Position class of the cut (root-cause oriented: partial frame or not)."""
    frames = case["frames"]
    off = case["offset"]
    pos = 0
    kind = "between-frames"
    for f in frames:
        ln = len(c04.frame_bytes(f))
        if pos < off < pos + ln:
            o = off - pos
            kind = "in-length" if o < 4 else "in-header" if o < 14 else "in-body"
        pos += ln
    return f"{case['followup']}:{kind}"


def inside_frame(case):
    return not _where(case).endswith("between-frames")


def plan(tier, seed):
    quick = tier == "quick"
    tasks = []
    nshards = 16
    for i in range(nshards):
        tasks.append(("enum", {"shard": i, "streams": 1 if quick else 20, "max_len": 70 if quick else 600}))
    for i in range(4):
        tasks.append(("race", {"shard": i, "n": 40 if quick else 1500}))
    for i in range(8):
        tasks.append(("closerace", {"shard": i, "n": 120 if quick else 2500}))
    return tasks


def race_strategy():
    return st.fixed_dictionaries(
        {
            "race": st.fixed_dictionaries(
                {
                    "active": st.booleans(),
                    "listen": st.booleans(),
                    "pending": st.booleans(),
                    "gap": st.sampled_from([0, 0, 0.1, 0.3, 0.6, 1.0, 9.9, 10.1]),
                }
            ),
            "sched": st.one_of(
                st.just({"seed": 0}),
                st.builds(lambda s, p: {"seed": s, "switch": p}, st.integers(1, 2**31), st.sampled_from([0.1, 0.5, 0.9])),
            ),
        }
    )


HOT = ("_on_connected", "_dispatcher_thread_function", "_on_connection_message_received", "_on_disconnected", "_process_send_queue", "_on_disconnecting", "_receiver_thread_function")


@st.composite
def closerace_strategy(draw):
    frames = draw(stream_strategy())
    total = sum(len(c04.frame_bytes(f)) for f in frames)
    off = total if draw(st.integers(0, 3)) else draw(st.integers(1, total))
    return {
        "frames": frames,
        "offset": off,
        "followup": draw(st.sampled_from(["peer_close", "peer_close", "disable"])),
        "state": draw(st.sampled_from(["selected", "not_selected"])),
        "active": draw(st.booleans()),
        "unsettled": True,
        "close_at": draw(st.sampled_from(["at-once", "response-queued", "response-queued"])),
        "sched": {"seed": draw(st.integers(1, 2**31)), "switch": draw(st.sampled_from([0.1, 0.5])), "pprob": draw(st.sampled_from([0.0, 0.02, 0.1, 0.1])), "hot": list(HOT)},
    }


def run_task(name, kw, ctx):
    if name == "closerace":

        def body(case):
            ctx.case(case, True, ["closerace", f"followup:{case['followup']}", f"state:{case['state']}", "active" if case["active"] else "passive", "where:" + _where(case).split(":")[1], "random-schedule", "close-at:" + case["close_at"]])
            return run_one(case)

        ctx.hyp(closerace_strategy(), body, kw["n"], seed_offset=900 + kw["shard"])
        return
    if name == "race":

        def body(case):
            rc = case["race"]
            ctx.case(case, True, ["race", "race:active" if rc["active"] else "race:passive"] + (["race:pending-connection"] if rc["pending"] and not rc["active"] else []))
            return run_race(case)

        ctx.hyp(race_strategy(), body, kw["n"], seed_offset=500 + kw["shard"])
        return
    import hypothesis
    from hypothesis import HealthCheck, given, settings

    streams = []

    @hypothesis.seed(ctx.seed * 1009 + kw["shard"])
    @settings(max_examples=kw["streams"] * 4, database=None, deadline=None, suppress_health_check=list(HealthCheck), phases=[hypothesis.Phase.generate])
    @given(stream_strategy(), st.booleans(), st.sampled_from(["selected", "selected", "not_selected"]), st.integers(0, 2**31))
    def collect(frames, active, state, sseed):
        total = sum(len(c04.frame_bytes(f)) for f in frames)
        if 24 <= total <= kw["max_len"] and len(streams) < kw["streams"]:
            streams.append((frames, active, state, sseed))

    collect()
    for si, (frames, active, state, sseed) in enumerate(streams):
        total = sum(len(c04.frame_bytes(f)) for f in frames)
        if kw["shard"] % 2 == 1:
            active = not active if si % 2 else active
        for off in range(0, total + 1):
            for fi, fu in enumerate(FOLLOWUPS):
                if ctx.out_of_time():
                    ctx.note("budget reached before all offsets of a stream were enumerated")
                    return
                sched = {"seed": 0} if (off + fi) % 3 else {"seed": (sseed + off * 7 + fi) % (2**31) + 1, "switch": 0.3}
                case = {"frames": frames, "offset": off, "followup": fu, "state": state, "active": active, "sched": sched}
                ctx.case(
                    case,
                    inside_frame(case),
                    [f"followup:{fu}", f"state:{state}", "active" if active else "passive", "where:" + _where(case).split(":")[1]]
                    + (["random-schedule"] if sched["seed"] else []),
                )
                ctx.report(run_one(case))
        ctx.count("streams_fully_enumerated")


def replay(case, ctx):
    if "race" in case:
        return run_race(case)
    return run_one(case)
