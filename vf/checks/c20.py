"""C20 - a secsgem host and equipment always reach communication and agree on data.

A real GemHostHandler and a real GemEquipmentHandler (documented registration API: status variables, equipment
constants, data values, collection events, alarms, a remote command) run in ONE deterministic-scheduler world, connected
to each other through the real TCP connection classes on simulated sockets (partial sends re-segment the byte stream,
PRNG thread schedules vary message timing). Generated: connect roles, enable order and offsets, host API calls,
equipment-side triggers, disable()/enable() cycles of either side.

Event subscriptions come in both forms of the documented call: with a report id chosen by the application
(`subscribe`, `subscribe2`, `subscribe_racing`: ids 2000/2001, outside the range of automatic numbers) and with an
automatic report id (`subscribe_auto`: one of three collection events, a list of 1..4 distinct variables out of two status
variables and three data values). `trigger_ce` triggers any of the three events. Subscriptions are never forgotten by the
model: what was subscribed before a disable()/enable() cycle of either side is still owed to the host afterwards (both
handler objects keep their tables: the equipment its report definitions and links, the host its report table and its
report id counter - verified on the unchanged tree). Next to the random alphabet a history template
(family `restart-history`) builds subscribe* / restart+ / subscribe* / trigger+ with random fillers in between, because
the random alphabet alone produces "subscription, restart, another subscription, trigger" only rarely.

Oracle:
 (i)   after both sides are enabled both waitfor_communicating() succeed within T5 + T6 + T3 + 2 x establish-delay
       (virtual time); the scheduler never reports a deadlock
 (ii)  every host service call returns what the equipment holds (a dict model kept by the harness from the values it
       configured / set through the API)
 (iii) each collection event triggered while subscribed/enabled reaches the host exactly once with the linked values:
       one collection_event_received per linked report, carrying exactly the variable ids of that subscription and the
       values the equipment holds for them (automatic report ids themselves are not predicted)
 (iv)  after either side is disabled and re-enabled, (i) holds again and calls work
"""

from __future__ import annotations

from hypothesis import strategies as st

from vf import hsmsrig
from vf.detsim.patch import simulation
from vf.run import Failure

PROPERTY = "C20"
LEVEL = "exploration"
TECHNIQUE = "model-based integration testing of two real handlers in one deterministic-scheduler world (generated roles, orders, schedules, segmentations, API call histories, restart cycles)"
RULE = (
    "Case = (host active | equipment active, enable order, offset, socket segmentation plan, schedule seed / switch "
    "probability / parked preemptions inside enable, disable and the link-event handlers, history of 1..12 ops over {request_svs, request_sv, list_svs, request_ecs, set_ecs in/out of range, "
    "list_ecs, list_alarms, enable/disable_alarm, set/clear_alarm, subscribe_collection_event (explicit or automatic report id; 3 events, "
    "variable lists of 1..4 out of 5 variables), trigger event, update value, "
    "go_online, go_offline, send_remote_command, are_you_there, restart host, restart equipment}); a fifth of the cases follow the "
    "template fill subscribe+ fill restart+ fill subscribe+ fill trigger+ fill (family restart-history). Non-trivial = >= 1 restart, "
    "or both sides enabled at the same virtual instant, or >= 5 calls spanning >= 3 capabilities; distinct by case hash."
)
HOT = ("enable", "disable", "_on_connected", "_on_disconnected", "_on_communicating", "_on_state_wait_cra")
ASSUMPTIONS = [
    "bounded liveness: 'reach communication' is checked against the virtual-time bound T5+T6+T3+2*delay after the later enable()",
    "schedules, segmentations and histories are sampled",
    "host calls are issued one at a time by one application thread",
]
BUDGET_S = {"quick": 110, "thorough": 1200}

T3, T5, T6, DELAY = 8.0, 4.0, 3.0, 3.0
BOUND = T5 + T6 + T3 + 2 * DELAY + 1.0

OPS = [
    "request_svs", "request_sv", "list_svs", "request_ecs", "set_ecs", "set_ecs_bad", "list_ecs", "list_alarms", "enable_alarm",
    "disable_alarm", "set_alarm", "clear_alarm", "subscribe", "subscribe_racing", "subscribe2", "trigger", "trigger", "update_sv", "go_online", "go_offline", "rcmd",
    "are_you_there", "restart_host", "restart_equipment", "subscribe_auto", "subscribe_auto", "trigger_ce",
]
CES = [50, 60, 70]
VIDS = [10, "SV2", 30, 31, 32]
RPT_A, RPT_B = 2000, 2001  # report ids chosen by the application (automatic ids count up from 1000)


@st.composite
def op_strategy(draw, kinds=None):
    k = draw(st.sampled_from(kinds or OPS))
    op = {"op": k}
    if k in ("update_sv", "set_ecs"):
        op["v"] = draw(st.integers(0, 500))
    if k == "set_ecs_bad":
        op["v"] = draw(st.sampled_from([501, 1000, 70000]))
    if k in ("subscribe_auto", "trigger_ce"):
        op["ce"] = draw(st.sampled_from(CES))
    if k == "subscribe_auto":
        op["vids"] = draw(st.lists(st.sampled_from(VIDS), min_size=1, max_size=4, unique=True))
    return op


@st.composite
def restart_history(draw):
    """subscribe+ restart+ subscribe+ trigger+ with 0..1 random ops in between (subscriptions judged across restarts)."""
    fill = lambda n: draw(st.lists(op_strategy(), max_size=n))  # noqa: E731
    subs = lambda: draw(st.lists(op_strategy(["subscribe_auto", "subscribe_auto", "subscribe_auto", "subscribe", "subscribe2"]), min_size=1, max_size=2))  # noqa: E731
    ops = fill(1) + subs() + fill(1)
    ops += draw(st.lists(op_strategy(["restart_host", "restart_host", "restart_equipment"]), min_size=1, max_size=2))
    ops += fill(1) + subs() + fill(1)
    ops += draw(st.lists(op_strategy(["trigger_ce", "trigger_ce", "trigger", "update_sv"]), min_size=1, max_size=3))
    ops += fill(1)
    return ops


@st.composite
def case_strategy(draw, max_ops=12):
    if draw(st.integers(0, 4)) == 0:
        ops = draw(restart_history())
    else:
        ops = [draw(op_strategy()) for _ in range(draw(st.integers(1, max_ops)))]
    return {
        "host_active": draw(st.booleans()),
        "first": draw(st.sampled_from(["host", "equipment"])),
        "offset": draw(st.sampled_from([0.0, 0.0, 0.3, 2.0, T5 + 0.5])),
        "seg": draw(st.lists(st.sampled_from([1, 3, 10, 14, 100, 4096]), max_size=4)),
        "sched": draw(
            st.one_of(
                st.just({"seed": 0}),
                st.builds(lambda s, p: {"seed": s, "switch": p}, st.integers(1, 2**31), st.sampled_from([0.05, 0.3])),
                # parked preemptions inside the lifecycle / link-event functions: the calling thread is held up there while the
                # library's own threads run on (connect, select, S1F13 ...)
                st.builds(lambda s, p, pp: {"seed": s, "switch": p, "pprob": pp, "hot": list(HOT)}, st.integers(1, 2**31), st.sampled_from([0.05, 0.3]), st.sampled_from([0.05, 0.2])),
                st.builds(lambda f, k: {"seed": 0, "preempts": [[f, k]], "hot": list(HOT)}, st.sampled_from(["enable", "enable", "disable", "_on_connected"]), st.integers(1, 12)),
            )
        ),
        "ops": ops,
    }


def run_case(case, observe=None):
    import secsgem.common
    import secsgem.gem
    import secsgem.hsms
    import secsgem.secs

    V = secsgem.secs.variables
    stats = {"restarts": 0, "caps": set(), "calls": 0, "same_instant": case["offset"] == 0.0}
    sc = case.get("sched", {})
    with simulation(sched_seed=sc.get("seed", 0), switch_prob=sc.get("switch", 0.0), preempts=[tuple(x) for x in sc.get("preempts", [])],
                    preempt_prob=sc.get("pprob", 0.0), hot=sc.get("hot", ()), system_counter=1000) as w:
        sim, net = w.sim, w.net
        seg = list(case.get("seg") or [])
        idx = [0]
        if seg:
            def plan(sock, offered, free):
                p = seg[idx[0] % len(seg)]
                idx[0] += 1
                return p

            net.send_plan = plan

        def settings(active, devtype):
            s = secsgem.hsms.HsmsSettings(
                address=hsmsrig.ADDR, port=hsmsrig.PORT,
                connect_mode=secsgem.hsms.HsmsConnectMode.ACTIVE if active else secsgem.hsms.HsmsConnectMode.PASSIVE,
                device_type=devtype, establish_communication_timeout=DELAY,
            )
            s.timeouts.t3, s.timeouts.t5, s.timeouts.t6 = T3, T5, T6
            return s

        rcmd_log = []

        class Equip(secsgem.gem.GemEquipmentHandler):
            def __init__(self, st_):
                super().__init__(st_, initial_control_state="HOST_OFFLINE")
                self.status_variables.update({
                    10: secsgem.gem.StatusVariable(10, "sv10", "m", V.U4, False),
                    "SV2": secsgem.gem.StatusVariable("SV2", "sv2", "c", V.String, False),
                })
                self.status_variables[10].value = 123
                self.status_variables["SV2"].value = "sample sv"
                self.equipment_constants.update({
                    20: secsgem.gem.EquipmentConstant(20, "ec20", 0, 500, 50, "deg", V.U4, False),
                })
                self.equipment_constants[20].value = 321
                self.data_values.update({
                    30: secsgem.gem.DataValue(30, "dv30", V.U4, False),
                    31: secsgem.gem.DataValue(31, "dv31", V.String, False),
                    32: secsgem.gem.DataValue(32, "dv32", V.U4, False),
                })
                self.data_values[30].value = 31337
                self.data_values[31].value = "dv31 text"
                self.data_values[32].value = 7
                self.collection_events.update({
                    50: secsgem.gem.CollectionEvent(50, "ce50", [30]),
                    60: secsgem.gem.CollectionEvent(60, "ce60", [31, 32]),
                    70: secsgem.gem.CollectionEvent(70, "ce70", [30, 31, 32]),
                    100025: secsgem.gem.CollectionEvent(100025, "alarm set", []),
                    200025: secsgem.gem.CollectionEvent(200025, "alarm clear", []),
                    5001: secsgem.gem.CollectionEvent(5001, "rcmd done", []),
                })
                self.alarms.update({25: secsgem.gem.Alarm(25, "alarm25", "alarm text", self.data_items.ALCD.PERSONAL_SAFETY, 100025, 200025)})
                self.remote_commands.update({"TEST_RCMD": secsgem.gem.RemoteCommand("TEST_RCMD", "test", ["P1"], 5001)})

            def _on_rcmd_TEST_RCMD(self, P1):  # noqa: N802,N803
                rcmd_log.append(P1)

        host = secsgem.gem.GemHostHandler(settings(case["host_active"], secsgem.common.DeviceType.HOST))
        eq = Equip(settings(not case["host_active"], secsgem.common.DeviceType.EQUIPMENT))
        for h in (host, eq):
            h.protocol._linktest_timeout = 1e12
        events = []
        host.events.collection_event_received += lambda d: events.append(("ce", d["ceid"].get(), d["rptid"].get(), [v["value"] for v in d["values"]], sim.now, [v["dvid"] for v in d["values"]]))
        alarms_rx = []
        host.events.alarm_received += lambda d: alarms_rx.append((d["alid"].get(), d["code"].get()))
        # ---- model of what the equipment holds
        model = {"sv10": 123, "ec20": 321, "alarm_enabled": False, "alarm_set": False, "subscribed": False, "subscribed2": False, "online": False, "auto": []}
        marks = {"auto_before_host_restart": False, "host_restarted_after_auto": False}

        def expected(ce):
            """Reports owed to the host for one trigger of `ce`: (report id or None = automatic, variable ids, values)."""
            vals = {10: model["sv10"], "SV2": "sample sv", 30: 31337, 31: "dv31 text", 32: 7}
            want = []
            if ce == 50 and model["subscribed"]:
                want.append((RPT_A, [30], [31337]))
            if ce == 50 and model["subscribed2"]:
                want.append((RPT_B, [10], [model["sv10"]]))
            for c, vids in model["auto"]:
                if c == ce:
                    want.append((None, list(vids), [vals[v] for v in vids]))
            return want

        def reports_differ(new, want):
            """None when the received events are exactly the wanted reports, else (got, want) for the message."""
            got = [(e[2], list(e[5]), list(e[3])) for e in new]
            rest = list(got)
            for w in sorted(want, key=lambda w: w[0] is None):  # reports with a known id first
                hit = [g for g in rest if (w[0] is None or g[0] == w[0]) and g[1] == w[1] and g[2] == w[2]]
                if not hit:
                    return got, want
                rest.remove(hit[0])
            return (got, want) if rest else None

        def fail(bucket, i, obs, exp):
            op = case["ops"][i] if 0 <= i < len(case["ops"]) else "startup"
            return Failure(bucket, case, f"op#{i} {op} t={sim.now - t0:.1f}: {obs}", exp)

        def call(fn, horizon=3 * T3 + 5):
            st_, box = sim.run(fn, horizon=horizon, name="app")
            return st_, box

        t0 = sim.now

        def both_communicating(i, phase):
            for name, h in (("host", host), ("equipment", eq)):
                st_, box = call(lambda h=h: h.waitfor_communicating(BOUND), horizon=BOUND + 5)
                if st_ != "done":
                    return fail(f"{phase}:waitfor_communicating-hangs:{name}", i, f"{st_} {sim.blocked_report()}", "returns")
                if "error" in box:
                    return fail(f"{phase}:waitfor_communicating-raises:{name}", i, repr(box["error"]), "True")
                if box.get("result") is not True:
                    return fail(f"{phase}:not-communicating:{name}", i, f"result={box.get('result')} host={host.communication_state.current.name}/{host.protocol.connection_state.current.name} eq={eq.communication_state.current.name}/{eq.protocol.connection_state.current.name}", f"COMMUNICATING within {BOUND}s")
            return None

        order = [("host", host), ("equipment", eq)] if case["first"] == "host" else [("equipment", eq), ("host", host)]
        st_, _ = call(order[0][1].enable, 30)
        if st_ != "done":
            return fail("enable-hangs", -1, st_, "returns")
        if case["offset"]:
            sim.advance(case["offset"])
        st_, _ = call(order[1][1].enable, 30)
        if st_ != "done":
            return fail("enable-hangs", -1, st_, "returns")
        f = both_communicating(-1, "startup")
        if f is not None:
            return f

        def hostcall(i, fn, what):
            stats["calls"] += 1
            st_, box = call(fn)
            if st_ != "done":
                return None, fail(f"host-call-hangs:{what}", i, f"{st_} {sim.blocked_report()}", "returns")
            if "error" in box:
                return None, fail(f"host-call-raises:{what}:{type(box['error']).__name__}", i, repr(box["error"]), "a result")
            return box.get("result"), None

        def plain(x):
            return x.get() if hasattr(x, "get") else x

        for i, op in enumerate(case["ops"]):
            k = op["op"]
            n_ev = len(events)
            if k == "request_svs":
                stats["caps"].add("sv")
                r, f = hostcall(i, lambda: host.request_svs([10, "SV2"]), k)
                if f:
                    return f
                got = [plain(x) for x in r] if r is not None else None
                if got != [model["sv10"], "sample sv"]:
                    return fail("wrong-data:request_svs", i, got, [model["sv10"], "sample sv"])
            elif k == "request_sv":
                stats["caps"].add("sv")
                r, f = hostcall(i, lambda: host.request_sv(10), k)
                if f:
                    return f
                if plain(r) != model["sv10"]:
                    return fail("wrong-data:request_sv", i, plain(r), model["sv10"])
            elif k == "list_svs":
                stats["caps"].add("sv")
                r, f = hostcall(i, lambda: host.list_svs([10]), k)
                if f:
                    return f
                got = plain(r)
                if not (isinstance(got, list) and len(got) == 1 and got[0].get("SVID") == 10 and got[0].get("SVNAME") == "sv10" and got[0].get("UNITS") == "m"):
                    return fail("wrong-data:list_svs", i, got, "[{SVID 10, SVNAME sv10, UNITS m}]")
            elif k == "request_ecs":
                stats["caps"].add("ec")
                r, f = hostcall(i, lambda: host.request_ecs([20]), k)
                if f:
                    return f
                got = [plain(x) for x in r] if r is not None else None
                if got != [model["ec20"]]:
                    return fail("wrong-data:request_ecs", i, got, [model["ec20"]])
            elif k in ("set_ecs", "set_ecs_bad"):
                stats["caps"].add("ec")
                v = op["v"]
                r, f = hostcall(i, lambda: host.set_ecs([[20, v]]), k)
                if f:
                    return f
                want = 0 if k == "set_ecs" else 3
                if plain(r) != want:
                    return fail(f"wrong-data:{k}-eac", i, plain(r), want)
                if k == "set_ecs":
                    model["ec20"] = v
                if eq.equipment_constants[20].value != model["ec20"]:
                    return fail(f"wrong-data:{k}-stored", i, eq.equipment_constants[20].value, model["ec20"])
            elif k == "list_ecs":
                stats["caps"].add("ec")
                r, f = hostcall(i, lambda: host.list_ecs([20]), k)
                if f:
                    return f
                got = plain(r)
                if not (isinstance(got, list) and len(got) == 1 and got[0].get("ECID") == 20 and got[0].get("ECNAME") == "ec20" and got[0].get("ECMIN") == 0 and got[0].get("ECMAX") == 500 and got[0].get("ECDEF") == 50):
                    return fail("wrong-data:list_ecs", i, got, "[{ECID 20, ec20, 0, 500, 50}]")
            elif k == "list_alarms":
                stats["caps"].add("alarm")
                r, f = hostcall(i, lambda: host.list_alarms([25]), k)
                if f:
                    return f
                got = r
                ok = isinstance(got, list) and len(got) == 1 and got[0].get("ALID") == 25 and got[0].get("ALTX") == "alarm text"
                if ok:
                    alcd = got[0].get("ALCD")
                    ok = bool(alcd & 0x80) == model["alarm_set"]
                if not ok:
                    return fail("wrong-data:list_alarms", i, got, f"ALID 25, set={model['alarm_set']}")
            elif k in ("enable_alarm", "disable_alarm"):
                stats["caps"].add("alarm")
                r, f = hostcall(i, (lambda: host.enable_alarm(25)) if k == "enable_alarm" else (lambda: host.disable_alarm(25)), k)
                if f:
                    return f
                if plain(r) != 0:
                    return fail(f"wrong-data:{k}", i, r, 0)
                model["alarm_enabled"] = k == "enable_alarm"
                if eq.alarms[25].enabled != model["alarm_enabled"]:
                    return fail(f"wrong-data:{k}-stored", i, eq.alarms[25].enabled, model["alarm_enabled"])
            elif k in ("set_alarm", "clear_alarm"):
                stats["caps"].add("alarm")
                n_al = len(alarms_rx)
                st_, box = call((lambda: eq.set_alarm(25)) if k == "set_alarm" else (lambda: eq.clear_alarm(25)))
                if st_ != "done":
                    return fail(f"equipment-call-hangs:{k}", i, f"{st_} {sim.blocked_report()}", "returns")
                if "error" in box:
                    return fail(f"equipment-call-raises:{k}", i, repr(box["error"]), "returns")
                changed = model["alarm_set"] != (k == "set_alarm")
                model["alarm_set"] = k == "set_alarm"
                sim.settle()
                new = alarms_rx[n_al:]
                if model["alarm_enabled"] and changed:
                    if len(new) != 1 or new[0][0] != 25 or bool(new[0][1] & 0x80) != model["alarm_set"]:
                        return fail("alarm-report-wrong", i, new, f"one S5F1 for ALID 25 set={model['alarm_set']}")
                elif not model["alarm_enabled"] and new:
                    return fail("alarm-report-while-disabled", i, new, "none")
            elif k == "subscribe":
                stats["caps"].add("event")
                if model["subscribed"]:
                    continue
                r, f = hostcall(i, lambda: host.subscribe_collection_event(50, [30], RPT_A), k)
                if f:
                    return f
                model["subscribed"] = True
            elif k == "subscribe_racing":
                # the equipment application triggers the event the moment the host's S2F37 has enabled it, i.e. while the host
                # is still inside subscribe_collection_event (waiting for S2F38): triggered while enabled => must reach the host
                stats["caps"].add("event")
                if model["subscribed"]:
                    continue
                import secsgem.common.protocol as _pm

                enabled_now = _pm.threading.Event()
                raced = {}

                def s2f37_and_notify(handler, message, _orig=eq._on_s02f37):
                    r = _orig(handler, message)
                    enabled_now.set()
                    return r

                def eq_app():
                    if enabled_now.wait(20):
                        raced["result"] = eq.trigger_collection_events([50])
                        raced["done"] = True

                eq.register_stream_function(2, 37, s2f37_and_notify)
                sim.spawn(eq_app, "equipment-app")
                r, f = hostcall(i, lambda: host.subscribe_collection_event(50, [30], RPT_A), k)
                eq.register_stream_function(2, 37, eq._on_s02f37)
                if f:
                    return f
                model["subscribed"] = True
                sim.advance(T3 + 1.0)
                if not raced.get("done"):
                    return fail("equipment-call-hangs:trigger-racing-subscribe", i, sim.blocked_report(), "trigger returns")
                new = [e for e in events[n_ev:] if e[1] == 50]
                want = expected(50)
                if len(new) != len(want):
                    return fail("event-not-exactly-once:racing-subscribe:" + ("lost" if len(new) < len(want) else "duplicated"), i, new, f"exactly {len(want)} collection_event_received for the event triggered right after S2F37 enabled it")
                d = reports_differ(new, want)
                if d is not None:
                    return fail("event-values-wrong", i, d[0], d[1])
                stats["racing_subscribe"] = stats.get("racing_subscribe", 0) + 1
            elif k == "subscribe2":
                # a second report (other variable) linked to the same event
                stats["caps"].add("event")
                if model["subscribed2"]:
                    continue
                r, f = hostcall(i, lambda: host.subscribe_collection_event(50, [10], RPT_B), k)
                if f:
                    return f
                model["subscribed2"] = True
            elif k == "subscribe_auto":
                # automatic report id; any of the events, any variable list. A second subscription of the same event adds a
                # second report to it (as subscribe2 does)
                stats["caps"].add("event")
                ce, vids = op["ce"], list(op["vids"])
                r, f = hostcall(i, lambda: host.subscribe_collection_event(ce, vids), k)
                if f:
                    return f
                model["auto"].append((ce, vids))
                stats["auto_subs"] = stats.get("auto_subs", 0) + 1
                if marks["host_restarted_after_auto"]:
                    stats["auto_sub_after_host_restart"] = True
                marks["auto_before_host_restart"] = True
            elif k in ("trigger", "trigger_ce"):
                stats["caps"].add("event")
                ce = op.get("ce", 50)
                st_, box = call(lambda: eq.trigger_collection_events([ce]))
                if st_ != "done":
                    return fail("equipment-call-hangs:trigger", i, f"{st_} {sim.blocked_report()}", "returns")
                sim.advance(0.5)
                other = [e for e in events[n_ev:] if e[1] != ce]
                if other:
                    return fail("event-without-trigger", i, other, f"only events for CEID {ce}")
                new = [e for e in events[n_ev:] if e[1] == ce]
                want = expected(ce)
                if want:
                    # the host fires one collection_event_received per linked report of the S6F11
                    if len(new) != len(want):
                        return fail("event-not-exactly-once:" + ("lost" if len(new) < len(want) else "duplicated"), i, new, f"exactly {len(want)} collection_event_received (one per linked report): {want}")
                    d = reports_differ(new, want)
                    if d is not None:
                        return fail("event-values-wrong", i, d[0], d[1])
                    if stats["restarts"]:
                        stats["event_after_restart"] = True
                    if any(w[0] is None for w in want):
                        stats["auto_event"] = True
                        if stats.get("auto_sub_after_host_restart"):
                            stats["auto_event_after_resubscribe"] = True
                elif new:
                    return fail("event-while-not-subscribed", i, new, "none")
            elif k == "update_sv":
                eq.status_variables[10].value = op["v"]
                model["sv10"] = op["v"]
            elif k == "go_online":
                stats["caps"].add("control")
                r, f = hostcall(i, host.go_online, k)
                if f:
                    return f
                want = 2 if model["online"] else 0
                if plain(r) != want:
                    return fail("wrong-data:go_online", i, plain(r), want)
                model["online"] = True
            elif k == "go_offline":
                stats["caps"].add("control")
                r, f = hostcall(i, host.go_offline, k)
                if f:
                    return f
                if plain(r) != 0:
                    return fail("wrong-data:go_offline", i, plain(r), 0)
                model["online"] = False
            elif k == "rcmd":
                stats["caps"].add("rcmd")
                n = len(rcmd_log)
                r, f = hostcall(i, lambda: host.send_remote_command("TEST_RCMD", [["P1", "v1"]]), k)
                if f:
                    return f
                hc = r.HCACK.get() if r is not None else None
                if hc not in (0, 4):
                    return fail("wrong-data:rcmd-hcack", i, hc, "0 or 4 (finish later)")
                sim.advance(0.5)
                if rcmd_log[n:] != ["v1"]:
                    return fail("rcmd-callback-not-called-once", i, rcmd_log[n:], ["v1"])
            elif k == "are_you_there":
                r, f = hostcall(i, host.are_you_there, k)
                if f:
                    return f
                if r is None or (r.header.stream, r.header.function) != (1, 2):
                    return fail("wrong-data:are_you_there", i, r, "S1F2")
            elif k in ("restart_host", "restart_equipment"):
                stats["restarts"] += 1
                h = host if k == "restart_host" else eq
                if k == "restart_host" and marks["auto_before_host_restart"]:
                    marks["host_restarted_after_auto"] = True
                st_, _ = call(h.disable, 120)
                if st_ != "done":
                    return fail(f"disable-hangs:{k}", i, f"{st_} {sim.blocked_report()}", "returns")
                sim.advance(1.0)
                st_, _ = call(h.enable, 30)
                if st_ != "done":
                    return fail(f"enable-hangs:{k}", i, st_, "returns")
                f = both_communicating(i, "after-" + k)
                if f is not None:
                    return f
            dup = events[n_ev:]
            if k not in ("trigger", "trigger_ce", "subscribe_racing") and dup:
                return fail("event-without-trigger", i, dup, "none")
        if sim.thread_errors and observe is not None:
            observe["thread_errors"] = sim.thread_errors[:3]
        if observe is not None:
            observe["switches"] = sim.switches
            observe.update({"restarts": stats["restarts"], "caps": len(stats["caps"]), "calls": stats["calls"], "same_instant": stats["same_instant"]})
            observe.update({x: stats[x] for x in ("auto_subs", "auto_sub_after_host_restart", "event_after_restart", "auto_event", "auto_event_after_resubscribe") if stats.get(x)})
    return None


def plan(tier, seed):
    quick = tier == "quick"
    return [("gen", {"shard": i, "n": 70 if quick else 320, "max_ops": 10 if quick else 16}) for i in range(16)]


def run_task(name, kw, ctx):
    def body(case):
        obs = {}
        f = run_case(case, obs)
        nt = bool(obs.get("restarts") or obs.get("same_instant") or (obs.get("calls", 0) >= 5 and obs.get("caps", 0) >= 3))
        cls = ["host-active" if case["host_active"] else "equipment-active", f"first:{case['first']}"]
        if obs.get("restarts"):
            cls.append("restart")
        if case["seg"]:
            cls.append("segmented")
        if case["sched"].get("seed"):
            cls.append("random-schedule")
        if case["sched"].get("pprob") or case["sched"].get("preempts"):
            cls.append("parked-preemptions")
        if obs.get("same_instant"):
            cls.append("simultaneous-enable")
        if obs.get("auto_subs"):
            cls.append("auto-report-id")
        if obs.get("auto_subs", 0) >= 2:
            cls.append("auto-report-id:2+")
        if obs.get("auto_sub_after_host_restart"):
            cls.append("auto-subscribe-before-and-after-host-restart")
        if obs.get("event_after_restart"):
            cls.append("subscribed-event-judged-after-restart")
        if obs.get("auto_event"):
            cls.append("auto-report-event-delivered")
        if obs.get("auto_event_after_resubscribe"):
            cls.append("auto-report-event-after-resubscribe-across-host-restart")
        ctx.case(case, nt or f is not None, cls)
        return f

    ctx.hyp(case_strategy(kw["max_ops"]), body, kw["n"], seed_offset=kw["shard"])


def replay(case, ctx):
    return run_case(case)
