"""C10 - the TCP transport delivers every accepted byte exactly once and in order.

The real TcpServerConnection / TcpClientConnection (and HsmsProtocol.send_message on top) run on simulated
non-blocking sockets whose send() accepts a GENERATED number of bytes (partial writes) into a receive buffer of
GENERATED capacity, drained by a reader actor with GENERATED pacing, under the deterministic scheduler.
Oracle: concatenation of all buffers whose send reported success == byte stream the peer read (content compare).
"""

from __future__ import annotations

import hashlib

from hypothesis import strategies as st

from vf import hsmsrig
from vf.ref import e5, e37
from vf.run import Failure

PROPERTY = "C10"
LEVEL = "exploration"
TECHNIQUE = "property-based testing of the real transport code on simulated sockets with generated partial writes, buffer sizes and reader pacing (differential on the delivered byte stream)"
RULE = (
    "Case = message sizes (1 .. 8 MiB, around 1024, 64 KiB, 1 MiB boundaries), peer receive-buffer capacity (1 byte .. "
    "unlimited), a cyclic plan of how many bytes each socket.send accepts, reader pacing (immediate, delayed start, small "
    "reads with pauses longer than the select timeout), API (Connection.send_data | HsmsProtocol.send_message), connect mode "
    "and thread schedule; in a quarter of the cases without a peer close the application calls disable() right after its sends were reported successful (peer has not read them yet). Oracle: every call returns within the virtual horizon; the peer's stream equals the concatenation "
    "of the buffers reported as sent (first mismatch offset reported). Non-trivial = at least one socket.send accepted fewer "
    "bytes than offered or raised EWOULDBLOCK (observed by the socket shim); distinct by case hash."
)
ASSUMPTIONS = [
    "partial-write behaviour of a non-blocking TCP socket is modelled by the socket shim (send returns 1..len accepted bytes, EWOULDBLOCK when the peer buffer is full); no real kernel is involved",
    "failure reporting is only exercised as 'call returns' after the peer has closed; TCP itself gives no delivery guarantee for bytes buffered at close",
]
BUDGET_S = {"quick": 100, "thorough": 900}


def payload(i, n):
    """Deterministic, position-dependent content so that loss / duplication / reordering changes the stream."""
    seedb = hashlib.blake2b(f"m{i}".encode(), digest_size=32).digest()
    reps = n // 32 + 1
    raw = bytearray(seedb * reps)[:n]
    # mix in the offset so that repeated 32-byte blocks differ
    for k in range(0, n, 64):
        raw[k] = (raw[k] + (k >> 6)) & 0xFF
    return bytes(raw)


def _block_len(n):
    """Length of the HSMS block send_message transmits for a payload of n bytes (14 bytes frame overhead + body)."""
    if n <= 0xFFFFFF - 16:
        body = len(e5.header("L", 2)) + len(e5.encode(("A", b"p"))) + len(e5.header("B", n)) + n
    else:
        body = n
    return 14 + body


def _n_for_block_len(target):
    for n in range(max(1, target - 40), target):
        if _block_len(n) == target:
            return n
    return None


@st.composite
def case_strategy(draw, max_size):
    sizes_pool = [1, 2, 100, 1023, 1024, 1025, 4096, 65535, 65536, 65537, 200_000]
    if max_size > 1_000_000:
        sizes_pool += [1048575, 1048576, 1048577, 3_000_000, 8 * 1048576]
    sizes = draw(st.lists(st.one_of(st.sampled_from(sizes_pool), st.integers(1, min(max_size, 300_000))), min_size=1, max_size=4))
    sizes = [min(s, max_size) for s in sizes]
    capacity = draw(st.sampled_from([1, 7, 512, 4096, 16384, 65536, 1 << 30]))
    plan = draw(st.lists(st.one_of(st.sampled_from([0, 1, 2, 100, 1000, 1460, 4096, 65536]), st.integers(1, 100_000)), min_size=0, max_size=6))
    if plan and max(plan) == 0:
        plan.append(1000)
    reader = {
        "start_delay": draw(st.sampled_from([0, 0, 0.3, 2.0])),
        "read": draw(st.sampled_from([1024, 4096, 65536, 333, 1 << 20])),
        "pause": draw(st.sampled_from([0, 0, 0.01, 0.6])),
    }
    if sum(sizes) > 2_000_000 and reader["read"] < 65536:
        reader["read"] = 65536
    if sum(sizes) > 300_000 and (capacity < 4096 or reader["read"] < 1024):
        capacity = max(capacity, 4096)
        reader["read"] = max(reader["read"], 4096)
    # keep the number of socket.send calls per case bounded (cost), by construction
    reader["close_after"] = draw(st.one_of(st.none(), st.none(), st.integers(0, max(1, sum(sizes)))))
    packet = draw(st.sampled_from([None, None, 1000, 4096, 65536]))
    per_send = min([capacity, reader["read"]] + ([max(plan)] if plan else []) + ([packet] if packet else []))
    if sum(sizes) // max(1, per_send) > 4000:
        scale = (sum(sizes) // max(1, per_send)) // 4000 + 1
        sizes = [max(1, x // scale) for x in sizes]
    via = draw(st.sampled_from(["send_data", "send_data", "send_message"]))
    if via == "send_message" and packet and draw(st.booleans()):
        # boundary of the packetisation: the encoded block is exactly k packets long (or one byte off)
        k = draw(st.integers(1, 3))
        d = draw(st.sampled_from([0, 0, -1, 1]))
        n = _n_for_block_len(k * packet + d)
        if n is not None and n <= max_size and (sum(sizes) - sizes[0] + n) // max(1, per_send) <= 4000:
            sizes[0] = n
    active = draw(st.booleans())
    sched = draw(
        st.one_of(st.just({"seed": 0}), st.builds(lambda s, p: {"seed": s, "switch": p}, st.integers(1, 2**31), st.sampled_from([0.05, 0.5])))
    )
    case = {"sizes": sizes, "capacity": capacity, "plan": plan, "reader": reader, "via": via, "active": active, "sched": sched, "packet": packet}
    if reader["close_after"] is None and draw(st.integers(0, 3)) == 0:
        # the application closes the connection (disable()) right after its sends were reported successful, while the peer has
        # not read them yet: an orderly close still delivers every accepted byte before the end of the stream
        case["then"] = "disable"
        if draw(st.booleans()):
            reader["start_delay"] = 2.0
    return case


def run_case(case, observe=None):
    import secsgem.hsms

    with hsmsrig.make_world(case.get("sched", {})) as w:
        sim, net = w.sim, w.net
        sim.max_pump_steps = 5_000_000
        rig = hsmsrig.Rig(w, active=bool(case.get("active")))
        rig.p._linktest_timeout = 1e12  # no periodic Linktest.req of the endpoint's own inside the observed byte stream
        st_, _ = rig.enable()
        if st_ != "done" or not rig.connect_peer():
            return Failure("setup-failed", case, st_, "connected")
        if case["via"] == "send_message" and not rig.select_from_peer():
            return Failure("setup-failed", case, rig.state(), "SELECTED")
        rig.drain()
        if case.get("packet"):
            rig.p.send_packet_size = case["packet"]  # documented tunable: block size for outbound data
        peer = rig.peer
        peer.capacity = case["capacity"]
        plan = list(case["plan"])
        idx = [0]

        def send_plan(sock, offered, free):
            if sock is peer or not plan:
                return None
            p = plan[idx[0] % len(plan)]
            idx[0] += 1
            return p

        net.send_plan = send_plan
        net.send_calls.clear()
        got = bytearray()
        rd = case["reader"]
        tshim = __import__("secsgem.common.tcp_connection", fromlist=["time"]).time
        stop = [False]
        closed_at = [None]
        leftover = bytearray()

        def reader():
            if rd["start_delay"]:
                tshim.sleep(rd["start_delay"])
            while not stop[0]:
                try:
                    chunk = peer.recv(rd["read"])
                except BlockingIOError:
                    tshim.sleep(0.05)
                    continue
                except OSError:
                    return
                if not chunk:
                    return
                got.extend(chunk)
                if rd.get("close_after") is not None and len(got) >= rd["close_after"]:
                    closed_at[0] = len(got) + len(peer.rx)
                    leftover.extend(peer.rx)
                    peer.close()
                    return
                if rd["pause"]:
                    tshim.sleep(rd["pause"])

        sim.spawn(reader, "peer-reader")
        bufs = []
        for i, n in enumerate(case["sizes"]):
            if case["via"] == "send_message":
                body = e5.encode(("L", [("A", b"p"), ("B", payload(i, n))])) if n <= 0xFFFFFF - 16 else payload(i, n)
                msg = secsgem.hsms.HsmsMessage(secsgem.hsms.HsmsStreamFunctionHeader(0x5000 + i, 7, 3, True, 0), body)
                bufs.append((msg, msg.blocks[0].encode()))
            else:
                bufs.append((None, payload(i, n)))
        results = []
        raised = []

        def driver():
            for msg, raw in bufs:
                if msg is not None:
                    results.append(bool(rig.p.send_message(msg)))
                else:
                    try:
                        results.append(bool(rig.p._connection.send_data(raw)))
                    except Exception as exc:  # an exception is a failure report, not a success report
                        raised.append(type(exc).__name__)
                        results.append(False)

        total = sum(len(raw) for _, raw in bufs)
        # number of socket.send calls a clean transfer needs: every call accepts at least min(plan entry, capacity, what the
        # reader frees per read) bytes; packets restart the count. Three times that (plus the spurious EWOULDBLOCKs) is a runaway.
        floor = max(1, min(case["capacity"], rd["read"]))
        accepts = [max(1, min(x, floor)) for x in plan if x > 0] or [floor]
        pieces = []
        for _, raw in bufs:
            pk = case.get("packet") if case["via"] == "send_message" and case.get("packet") else len(raw)
            pieces += [min(pk, len(raw) - o) for o in range(0, len(raw), max(1, pk))] or [0]
        clean, j = 0, 0
        for n in pieces:
            while n > 0:
                n -= accepts[j % len(accepts)]
                j += 1
                clean += 1
        max_calls = min(200 + 3 * clean * (1 + plan.count(0)), 300000)
        prog = {"key": None, "t": sim.now}

        def stalled():
            # hang verdict without waiting for the horizon: nothing moved on the wire for 120 virtual seconds
            if len(net.send_calls) > max_calls:
                return True  # runaway: far more socket.send calls than any clean transfer of these sizes needs
            key = (len(net.send_calls), peer.total_received, len(got), len(results))
            if key != prog["key"]:
                prog["key"], prog["t"] = key, sim.now
                return False
            return sim.now - prog["t"] > 120.0

        st_, box = sim.run(driver, horizon=1e5, name="sender", stop=stalled)
        if st_ == "stop":
            why = "runaway" if len(net.send_calls) > max_calls else "stalled"
            return Failure(f"send-{why}:{case['via']}", case, f"{len(net.send_calls)} socket.send calls, {len(got) + len(peer.rx)} of {total} bytes at the peer, no progress for 120 virtual s: {sim.blocked_report()[:4]}", "send returns")
        if st_ != "done":
            return Failure(f"send-does-not-return:{case['via']}", case, f"{st_} {sim.blocked_report()}", "send returns")
        if "error" in box:
            return Failure(f"send-raises:{case['via']}", case, repr(box["error"]), "True/False")
        unread_at_close = None
        if case.get("then") == "disable" and all(results):
            unread_at_close = len(peer.rx)
            std, _ = sim.run(rig.p.disable, horizon=300, name="disable")
            if std != "done":
                return Failure("disable-after-send-does-not-return", case, f"{std} {sim.blocked_report()[:4]}", "disable() returns")
            if observe is not None:
                observe["unread_at_close"] = unread_at_close
        # let the reader drain everything that is in flight
        for _ in range(200):
            if not peer.rx:
                break
            sim.advance(1.0)
        stop[0] = True
        sim.advance(1.0)
        got.extend(peer.recv_all())
        expected = b"".join(raw for (m, raw), ok in zip(bufs, results) if ok)
        if closed_at[0] is not None:
            # the peer closed mid-way: everything reported as sent must have reached the peer (read or buffered at close),
            # i.e. a send that could not be completed must have reported failure
            delivered = bytes(got) + bytes(leftover)
            if observe is not None:
                observe["partial"] = sum(1 for (_, off, acc) in net.send_calls if acc < off)
                observe["peer_closed"] = True
                observe["raised"] = list(raised)
            ok_prefix = b""
            for (m, raw), ok in zip(bufs, results):
                if not ok:
                    break
                ok_prefix += raw
            if delivered[: len(ok_prefix)] != ok_prefix:
                return Failure(f"success-reported-for-undelivered-send:{case['via']}", case, _diff(delivered, ok_prefix), "sends reported successful are complete at the peer")
            return None
        partial = sum(1 for (_, off, acc) in net.send_calls if acc < off)
        if observe is not None:
            observe["partial"] = partial
            observe["send_calls"] = len(net.send_calls)
        if not all(results):
            # a failed send on a healthy link is not forbidden by the statement; everything reported sent before it must be there
            k = results.index(False)
            pre = b"".join(raw for (m, raw) in bufs[:k])
            if bytes(got[: len(pre)]) != pre:
                return Failure(f"stream-mismatch-before-failed-send:{case['via']}", case, _diff(got, pre), "prefix intact")
            return None
        if unread_at_close is not None:
            # after the local close only the prefix is compared: the session layer may append its Separate.req
            if bytes(got[: len(expected)]) != expected:
                return Failure(f"stream-mismatch:{case['via']}:{_kind(got[: len(expected)], expected)}:after-local-close", case, _diff(got, expected), f"{len(expected)} bytes identical, then end of stream")
            return None
        if bytes(got) != expected:
            return Failure(f"stream-mismatch:{case['via']}:{_kind(got, expected)}", case, _diff(got, expected), f"{len(expected)} bytes identical")
    return None


def _kind(got, exp):
    if len(got) < len(exp):
        return "bytes-lost"
    if len(got) > len(exp):
        return "bytes-extra"
    return "bytes-altered"


def _diff(got, exp):
    n = min(len(got), len(exp))
    first = next((i for i in range(n) if got[i] != exp[i]), n)
    return f"received {len(got)} of {len(exp)} bytes, first mismatch at offset {first}"


def plan(tier, seed):
    quick = tier == "quick"
    tasks = []
    for i in range(16):
        big = (not quick) and i % 4 == 0
        tasks.append(("gen", {"shard": i, "n": 25 if quick else (60 if big else 400), "max_size": 9_000_000 if big else 300_000}))
    return tasks


def run_task(name, kw, ctx):
    def body(case):
        obs = {}
        f = run_case(case, obs)
        nt = obs.get("partial", 0) > 0
        ctx.case(
            case,
            nt,
            [f"via:{case['via']}", "active" if case["active"] else "passive", f"cap:{case['capacity']}"]
            + (["partial-write-observed"] if nt else [])
            + (["size>=1MiB"] if max(case["sizes"]) >= 1048576 else [])
            + (["peer-closes-midway"] if obs.get("peer_closed") else [])
            + (["send_data-raised-after-close"] if obs.get("raised") else [])
            + (["spurious-ewouldblock"] if 0 in case["plan"] else [])
            + (["packetised"] if case.get("packet") and case["via"] == "send_message" and max(case["sizes"]) > case["packet"] else [])
            + (["block-exact-multiple-of-packet"] if case.get("packet") and case["via"] == "send_message" and any(_block_len(n) % case["packet"] == 0 for n in case["sizes"]) else [])
            + (["local-close-after-send"] if case.get("then") == "disable" else [])
            + (["local-close-with-unread-bytes-at-the-peer"] if obs.get("unread_at_close") else [])
            + (["random-schedule"] if case["sched"].get("seed") else []),
        )
        return f

    ctx.hyp(case_strategy(kw["max_size"]), body, kw["n"], seed_offset=kw["shard"])


def replay(case, ctx):
    return run_case(case)
