"""HSMS endpoint under detsim: the real HsmsProtocol + real TCP connection classes on simulated sockets,
driven by a scripted raw peer. Shared by C04, C05, C06, C09, C10 (and the GEM rigs build on it).
"""

from __future__ import annotations

from vf.detsim.patch import simulation
from vf.ref import e37

ADDR, PORT = "127.0.0.1", 5000


class Rig:
    """One secsgem HSMS endpoint (passive or active) + scripted peer socket."""

    def __init__(self, world, active=False, device_id=0, t3=45, t5=10, t6=5, protocol=None):
        import secsgem.common
        import secsgem.hsms

        self.w = world
        self.sim = world.sim
        self.net = world.net
        self.active = active
        self.settings = secsgem.hsms.HsmsSettings(
            address=ADDR,
            port=PORT,
            connect_mode=secsgem.hsms.HsmsConnectMode.ACTIVE if active else secsgem.hsms.HsmsConnectMode.PASSIVE,
            device_id=device_id,
        )
        self.settings.timeouts.t3 = t3
        self.settings.timeouts.t5 = t5
        self.settings.timeouts.t6 = t6
        self.p = protocol if protocol is not None else secsgem.hsms.HsmsProtocol(self.settings)
        self.received = []  # message_received events: dicts
        self.events = []
        self.p.events.message_received += self._on_message
        self.p.events.connected += lambda d: self.events.append("connected")
        self.p.events.disconnected += lambda d: self.events.append("disconnected")
        self.p.events.communicating += lambda d: self.events.append("communicating")
        self.peer = None
        self.listener = None
        self.rxbuf = b""  # bytes read from the endpoint, not yet parsed
        self.frames_out = []  # frames the endpoint sent (parsed by ref.e37), in order
        self.on_message_hook = None
        if active:
            self.listener = self.net.listen(ADDR, PORT)

    def _on_message(self, data):
        m = data["message"]
        rec = {
            "system": m.header.system,
            "stream": m.header.stream,
            "function": m.header.function,
            "w": 1 if m.header.require_response else 0,
            "session": m.header.device_id,
            "body": bytes(m.data).hex(),
            "t": self.sim.now,
        }
        self.received.append(rec)
        if self.on_message_hook:
            self.on_message_hook(rec)

    # ---- lifecycle
    def enable(self, horizon=60):
        return self.sim.run(self.p.enable, horizon=horizon, name="enable")

    def disable(self, horizon=300):
        return self.sim.run(self.p.disable, horizon=horizon, name="disable")

    def connect_peer(self):
        """Establish the TCP connection from/to the scripted peer. Returns True if connected."""
        if self.active:
            # the endpoint's connect thread connects to our listener (immediately or after T5 retry)
            self.sim.settle()
            s = self.listener.accept_nowait()
            waited = 0.0
            while s is None and waited < self.settings.timeouts.t5 + 1:
                # small steps: the endpoint's Select.req must be answered within T6 of the (re)connect
                self.sim.advance(0.25)
                waited += 0.25
                s = self.listener.accept_nowait()
            if s is None:
                return False
            self.peer = s
        else:
            try:
                self.peer = self.net.connect(ADDR, PORT)
            except ConnectionRefusedError:
                self.peer = None
                return False
        self.rxbuf = b""
        self._rx_total = 0
        self.sim.settle()
        return True

    def state(self):
        return self.p.connection_state.current.name

    # ---- traffic
    def feed(self, data: bytes, settle=True):
        self.peer.send(data)
        if settle:
            self.sim.settle()

    def drain(self):
        """Read what the endpoint sent; return newly completed frames (ref.e37 dicts)."""
        if self.peer is None:
            return []
        new = self.peer.recv_all()
        self.rxbuf += new
        self._rx_total = getattr(self, "_rx_total", 0) + len(new)
        before = len(self.rxbuf)
        frames, self.rxbuf = e37.parse(self.rxbuf)
        # virtual send time of each frame = time of the socket.send call that carried its last byte
        src = self.peer.peer
        pos = self._rx_total - before
        for f in frames:
            pos += 14 + len(f["body"])
            f["t"] = next((t for (cum, t) in (src.tx_times if src is not None else []) if cum >= pos), self.sim.now)
        self.frames_out.extend(frames)
        return frames

    def select_from_peer(self, system=0x1001):
        """Peer sends Select.req (passive endpoint) or answers the endpoint's Select.req (active)."""
        if self.active:
            fr = [f for f in self.drain() if f["stype"] == e37.SELECT_REQ]
            if not fr:
                return False
            self.feed(e37.control_frame(e37.SELECT_RSP, fr[-1]["system"]))
        else:
            self.feed(e37.control_frame(e37.SELECT_REQ, system))
            self.drain()
        return self.state() == "CONNECTED_SELECTED"


def make_world(case_sched):
    """simulation() context from the 'sched' part of a case."""
    return simulation(
        sched_seed=case_sched.get("seed", 0),
        switch_prob=case_sched.get("switch", 0.0),
        preempts=[tuple(p) for p in case_sched.get("preempts", [])],
        preempt_prob=case_sched.get("pprob", 0.0),
        hot=case_sched.get("hot", ()),
        system_counter=case_sched.get("syscnt", 1000),
    )
