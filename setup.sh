#!/bin/bash
# Offline setup: make sure hypothesis is importable by /venv/bin/python; atheris into .deps (optional, fuzz tier).
cd "$(dirname "$0")" || exit 1
export PIP_NO_INDEX=1
/venv/bin/python -c "import hypothesis" 2>/dev/null || /venv/bin/pip install --no-index --find-links /opt/veriftools/wheels hypothesis || exit 1
mkdir -p .deps
if ! PYTHONPATH=.deps /venv/bin/python -c "import atheris" 2>/dev/null; then
  /venv/bin/pip install -q --no-index --find-links /opt/veriftools/wheels --target .deps atheris 2>/dev/null || echo "atheris not installed (fuzz tasks will be skipped and say so)"
fi
/venv/bin/python -c "import sys; sys.path.insert(0,'.'); from vf.ref import e5; e5.selftest(); print('setup ok')"
